"""Reference semantics of the ticket instructions and the structural instructions used around them (C20 oracle).

Written from the Michelson reference (tickets: TICKET, READ_TICKET, SPLIT_TICKET, JOIN_TICKETS; Lima and later:
TICKET returns an option); independent of pytezos.

Types  ('nat',) ('string',) ('unit',) ('address',) ('ticket', c) ('pair', a, b) ('option', a) ('list', a)
       ('map', k, v) ('or', a, b)   (passive containers: no instruction of the model looks inside them)
Values nat int | string str | unit () | address str | ticket ('T', ticketer, content, amount)
       pair (a, b) | option None / ('Some', v) | list tuple | map tuple of (key, value) in key order | or ('Left', v) / ('Right', v)
A stack is a tuple of (type, value), top first.

step(instr, stack, self_address) -> ('ok', stack') | ('fail',) | ('illtyped',)
instr: (prim, *args); DIP carries a tuple of instructions, IF_NONE two tuples, PUSH (type, value), NIL a type.
"""
NAT, STRING, UNIT, ADDRESS = ('nat',), ('string',), ('unit',), ('address',)


def ticket(c):
    return ('ticket', c)


def pair(a, b):
    return ('pair', a, b)


def option(a):
    return ('option', a)


def lst(a):
    return ('list', a)


def has_ticket(ty):
    return ty[0] == 'ticket' or any(has_ticket(x) for x in ty[1:] if isinstance(x, tuple))


def comparable(ty):
    return ty in (NAT, STRING, UNIT, ADDRESS) or (ty[0] in ('pair', 'option') and all(comparable(x) for x in ty[1:]))


def tickets_in(ty, v):
    """all tickets inside a value: list of (ticketer, content type, content, amount)"""
    k = ty[0]
    if k == 'ticket':
        return [(v[1], ty[1], v[2], v[3])]
    if k == 'pair':
        return tickets_in(ty[1], v[0]) + tickets_in(ty[2], v[1])
    if k == 'option':
        return [] if v is None else tickets_in(ty[1], v[1])
    if k == 'list':
        return [t for x in v for t in tickets_in(ty[1], x)]
    if k == 'map':
        return [t for _, x in v for t in tickets_in(ty[2], x)]
    if k == 'or':
        return tickets_in(ty[1] if v[0] == 'Left' else ty[2], v[1])
    return []


def totals(stack):
    """{(ticketer, content type, content): total amount} over the whole stack"""
    out = {}
    for ty, v in stack:
        for ticketer, cty, c, n in tickets_in(ty, v):
            out[(ticketer, cty, c)] = out.get((ticketer, cty, c), 0) + n
    return out


ILL, FAIL = ('illtyped',), ('fail',)


def run(prog, stack, self_address):
    for ins in prog:
        r = step(ins, stack, self_address)
        if r[0] != 'ok':
            return r
        stack = r[1]
    return ('ok', stack)


def step(ins, S, self_address):
    p = ins[0]
    n = len(S)

    def ok(*top, drop=0):
        return ('ok', tuple(top) + S[drop:])

    if p == 'PUSH':
        return ok((ins[1], ins[2]))
    if p == 'NIL':
        return ok((lst(ins[1]), ()))
    if p == 'UNIT':
        return ok((UNIT, ()))
    if p == 'DROP':
        return ok(drop=1) if n >= 1 else ILL
    if p == 'SWAP':
        return ok(S[1], S[0], drop=2) if n >= 2 else ILL
    if p == 'DUP':
        k = ins[1] if len(ins) > 1 else 1
        if k < 1 or n < k or has_ticket(S[k - 1][0]):
            return ILL
        return ok(S[k - 1])
    if p == 'DIG':
        k = ins[1]
        return ('ok', (S[k],) + S[:k] + S[k + 1:]) if n > k else ILL
    if p == 'DUG':
        k = ins[1]
        return ('ok', S[1:k + 1] + (S[0],) + S[k + 1:]) if n > k else ILL
    if p == 'PAIR':
        if n < 2:
            return ILL
        (ta, a), (tb, b) = S[0], S[1]
        return ok((pair(ta, tb), (a, b)), drop=2)
    if p == 'UNPAIR':
        if n < 1 or S[0][0][0] != 'pair':
            return ILL
        t, v = S[0]
        return ok((t[1], v[0]), (t[2], v[1]), drop=1)
    if p in ('CAR', 'CDR'):
        if n < 1 or S[0][0][0] != 'pair':
            return ILL
        t, v = S[0]
        i = 0 if p == 'CAR' else 1
        return ok((t[1 + i], v[i]), drop=1)
    if p == 'SOME':
        if n < 1:
            return ILL
        t, v = S[0]
        return ok((option(t), ('Some', v)), drop=1)
    if p == 'NONE':
        return ok((option(ins[1]), None))
    if p == 'CONS':
        if n < 2 or S[1][0] != lst(S[0][0]):
            return ILL
        return ok((S[1][0], (S[0][1],) + S[1][1]), drop=2)
    if p == 'DIP':
        if n < 1:
            return ILL
        r = run(ins[1], S[1:], self_address)
        return ('ok', (S[0],) + r[1]) if r[0] == 'ok' else r
    if p == 'IF_NONE':
        if n < 1 or S[0][0][0] != 'option':
            return ILL
        t, v = S[0]
        rest = S[1:]
        # both branches must type to the same stack: checked on types by running both on representative stacks is
        # beyond this model; the generator only emits the two forms below, which are well typed by construction
        if v is None:
            return run(ins[1], rest, self_address)
        return run(ins[2], ((t[1], v[1]),) + rest, self_address)
    if p == 'FAILWITH':
        return FAIL if n >= 1 else ILL
    if p == 'TICKET':
        if n < 2 or S[1][0] != NAT or not comparable(S[0][0]):
            return ILL
        (cty, c), (_, amount) = S[0], S[1]
        res = None if amount == 0 else ('Some', ('T', self_address, c, amount))
        return ok((option(ticket(cty)), res), drop=2)
    if p == 'READ_TICKET':
        if n < 1 or S[0][0][0] != 'ticket':
            return ILL
        t, v = S[0]
        cty = t[1]
        info = (pair(ADDRESS, pair(cty, NAT)), (v[1], (v[2], v[3])))
        return ok(info, S[0], drop=1)
    if p == 'SPLIT_TICKET':
        if n < 2 or S[0][0][0] != 'ticket' or S[1][0] != pair(NAT, NAT):
            return ILL
        (t, v), (_, (l, r)) = S[0], S[1]
        rt = option(pair(t, t))
        if l == 0 or r == 0 or l + r != v[3]:
            return ok((rt, None), drop=2)
        return ok((rt, ('Some', (('T', v[1], v[2], l), ('T', v[1], v[2], r)))), drop=2)
    if p == 'JOIN_TICKETS':
        if n < 1:
            return ILL
        t, v = S[0]
        if t[0] != 'pair' or t[1][0] != 'ticket' or t[1] != t[2]:
            return ILL
        a, b = v
        if a[1] != b[1] or a[2] != b[2]:
            return ok((option(t[1]), None), drop=1)
        return ok((option(t[1]), ('Some', ('T', a[1], a[2], a[3] + b[3]))), drop=1)
    raise KeyError(p)


# ---------------------------------------------------------------------------- Micheline rendering (for the real interpreter)
def ty_expr(t):
    if len(t) == 1:
        return {'prim': t[0]}
    return {'prim': t[0], 'args': [ty_expr(x) for x in t[1:]]}


def val_expr(t, v):
    k = t[0]
    if k == 'nat':
        return {'int': str(v)}
    if k in ('string', 'address'):
        return {'string': v}
    if k == 'unit':
        return {'prim': 'Unit'}
    if k == 'ticket':
        return {'prim': 'Pair', 'args': [{'string': v[1]}, {'prim': 'Pair', 'args': [val_expr(t[1], v[2]), {'int': str(v[3])}]}]}
    if k == 'pair':
        return {'prim': 'Pair', 'args': [val_expr(t[1], v[0]), val_expr(t[2], v[1])]}
    if k == 'option':
        return {'prim': 'None'} if v is None else {'prim': 'Some', 'args': [val_expr(t[1], v[1])]}
    if k == 'list':
        return [val_expr(t[1], x) for x in v]
    if k == 'map':
        return [{'prim': 'Elt', 'args': [val_expr(t[1], a), val_expr(t[2], b)]} for a, b in v]
    if k == 'or':
        return {'prim': v[0], 'args': [val_expr(t[1] if v[0] == 'Left' else t[2], v[1])]}
    raise KeyError(k)


def instr_expr(ins):
    p = ins[0]
    if p == 'PUSH':
        return {'prim': 'PUSH', 'args': [ty_expr(ins[1]), val_expr(ins[1], ins[2])]}
    if p in ('NIL', 'NONE'):
        return {'prim': p, 'args': [ty_expr(ins[1])]}
    if p in ('DUP', 'DIG', 'DUG') and len(ins) > 1:
        return {'prim': p, 'args': [{'int': str(ins[1])}]}
    if p == 'DIP':
        return {'prim': 'DIP', 'args': [[instr_expr(x) for x in ins[1]]]}
    if p == 'IF_NONE':
        return {'prim': 'IF_NONE', 'args': [[instr_expr(x) for x in ins[1]], [instr_expr(x) for x in ins[2]]]}
    return {'prim': p}


def instr_text(ins):
    p = ins[0]
    if p == 'PUSH':
        return f'PUSH {ty_text(ins[1])} {val_text(ins[1], ins[2])}'
    if p in ('NIL', 'NONE'):
        return f'{p} {ty_text(ins[1], True)}'
    if p in ('DUP', 'DIG', 'DUG') and len(ins) > 1:
        return f'{p} {ins[1]}'
    if p == 'DIP':
        return 'DIP { ' + ' ; '.join(instr_text(x) for x in ins[1]) + ' }'
    if p == 'IF_NONE':
        return 'IF_NONE { ' + ' ; '.join(instr_text(x) for x in ins[1]) + ' } { ' + ' ; '.join(instr_text(x) for x in ins[2]) + ' }'
    return p


def ty_text(t, paren=True):
    if len(t) == 1:
        return t[0]
    s = t[0] + ' ' + ' '.join(ty_text(x) for x in t[1:])
    return f'({s})' if paren else s


def val_text(t, v):
    k = t[0]
    if k == 'nat':
        return str(v)
    if k in ('string', 'address'):
        return f'"{v}"'
    if k == 'unit':
        return 'Unit'
    if k == 'ticket':
        return f'(Pair "{v[1][:6]}.." {val_text(t[1], v[2])} {v[3]})'
    if k == 'pair':
        return f'(Pair {val_text(t[1], v[0])} {val_text(t[2], v[1])})'
    if k == 'option':
        return 'None' if v is None else f'(Some {val_text(t[1], v[1])})'
    if k == 'list':
        return '{ ' + ' ; '.join(val_text(t[1], x) for x in v) + ' }'
    if k == 'map':
        return '{ ' + ' ; '.join(f'Elt {val_text(t[1], a)} {val_text(t[2], b)}' for a, b in v) + ' }'
    if k == 'or':
        return f'({v[0]} {val_text(t[1] if v[0] == "Left" else t[2], v[1])})'
    raise KeyError(k)
