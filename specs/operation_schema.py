"""Oracle for C06 — binary schema of `operation` (shell header + `operation.contents` list) of the current Tezos
protocol, written from the protocol's encoding description (`octez-codec describe <proto>.operation.contents binary
schema` / docs "P2P message format"), independent of pytezos' operation/forge.py.

    group            := branch(32) content*                       (the signature is not part of the forged bytes)
    manager header   := tag(1) source:pkh(21) fee:N counter:N gas_limit:N storage_limit:N
    pkh (21 bytes)   := 00 ed25519 | 01 secp256k1 | 02 p256 | 03 bls , then the 20-byte hash
    contract_id (22) := 00 pkh(21)  |  01 hash(20) 00             (implicit | originated, padded)
    public_key       := 00 ed25519(32) | 01 secp256k1(33) | 02 p256(33) | 03 bls(48)
    N                := Zarith natural (7-bit groups, little endian, minimal)            [specs/zarith.py]
    bool             := 00 | ff
    expr             := Micheline binary                                                    [specs/micheline_bin.py]
    dyn(x)           := len32(x) x

    107 reveal        header public_key  proof?: bool [dyn(bls_signature(96))]
    108 transaction   header amount:N destination:contract_id  parameters?: bool [entrypoint dyn(expr)]
    109 origination   header balance:N delegate?: bool [pkh]  script: dyn(code expr) dyn(storage expr)
    110 delegation    header delegate?: bool [pkh]
    111 register_global_constant   header value: dyn(expr)
    158 transfer_ticket   header dyn(ticket_contents) dyn(ticket_ty) ticket_ticketer:contract_id ticket_amount:N
                          destination:contract_id entrypoint: dyn(utf8)
    201 smart_rollup_add_messages  header message: dyn( (dyn(bytes))* )
    206 smart_rollup_execute_outbox_message  header rollup(20) cemented_commitment(32) output_proof: dyn(bytes)
     17 failing_noop      arbitrary: dyn(bytes)
      4 activate_account  pkh: ed25519 hash(20)  secret(20)

    entrypoint := 00 default | 01 root | 02 do | 03 set_delegate | 04 remove_delegate | 05 deposit | 06 stake
                | 07 unstake | 08 finalize_unstake | 09 set_delegate_parameters | ff len8 name(1..31 bytes)
    `parameters` is absent when the entrypoint is `default` and the value is `Unit` (the protocol's encoding maps that
    pair to "no parameters"), so  {default, Unit}  and  no parameters  are the same operation.

Validated (props/C06_R.py, at every run) against the recorded operations of /repo/tests/unit_tests/test_operation/data
(transaction, transfer_ticket, smart_rollup_add_messages, smart_rollup_execute_outbox_message: operation hash =
Blake2b-256(encode(group) ‖ signature)), the octez-client failing_noop signature of test_failing_noop.py, and the reveal
operation of docs/source/quick_start.rst (protocol Lima: without the `proof` option byte added in protocol 023).
origination, delegation, register_global_constant and activate_account have no recorded artefact offline: tags and
field order from the protocol documentation, every field encoding shared with the validated kinds.
"""
from __future__ import annotations
import hashlib
from specs import b58
from specs.zarith import enc_nat, dec_nat_strict
from specs import micheline_bin as MB

TAGS = {
    'activate_account': 4, 'failing_noop': 17, 'reveal': 107, 'transaction': 108, 'origination': 109, 'delegation': 110,
    'register_global_constant': 111, 'transfer_ticket': 158, 'smart_rollup_add_messages': 201,
    'smart_rollup_execute_outbox_message': 206,
}
KIND_OF_TAG = {v: k for k, v in TAGS.items()}
ENTRYPOINT_TAGS = {'default': 0, 'root': 1, 'do': 2, 'set_delegate': 3, 'remove_delegate': 4, 'deposit': 5, 'stake': 6,
                   'unstake': 7, 'finalize_unstake': 8, 'set_delegate_parameters': 9}
ENTRYPOINT_OF_TAG = {v: k for k, v in ENTRYPOINT_TAGS.items()}
MAX_ENTRYPOINT = 31

# Base58Check prefixes (Octez Base58.Prefix) -> payload length
B58 = {
    'tz1': (bytes([6, 161, 159]), 20), 'tz2': (bytes([6, 161, 161]), 20), 'tz3': (bytes([6, 161, 164]), 20),
    'tz4': (bytes([6, 161, 166]), 20), 'KT1': (bytes([2, 90, 121]), 20), 'sr1': (bytes([6, 124, 117]), 20),
    'src1': (bytes([17, 165, 134, 138]), 32), 'B': (bytes([1, 52]), 32), 'o': (bytes([5, 116]), 32),
    'edpk': (bytes([13, 15, 37, 217]), 32), 'sppk': (bytes([3, 254, 226, 86]), 33), 'p2pk': (bytes([3, 178, 139, 127]), 33),
    'BLpk': (bytes([6, 149, 135, 204]), 48), 'BLsig': (bytes([40, 171, 64, 207]), 96), 'sig': (bytes([4, 130, 43]), 64),
    'edsig': (bytes([9, 245, 205, 134, 18]), 64), 'spsig': (bytes([13, 115, 101, 19, 63]), 64), 'p2sig': (bytes([54, 240, 44, 52]), 64),
}
PKH_TAG = {'tz1': 0, 'tz2': 1, 'tz3': 2, 'tz4': 3}
PK_TAG = {'edpk': 0, 'sppk': 1, 'p2pk': 2, 'BLpk': 3}


class Malformed(ValueError):
    pass


def b58enc(kind: str, payload: bytes) -> str:
    pref, ln = B58[kind]
    if len(payload) != ln:
        raise Malformed(f'{kind} payload of {len(payload)} bytes')
    return b58.encode_check(pref + payload)


def b58dec(s: str, kinds) -> tuple:
    """-> (kind, payload) among the admissible kinds"""
    try:
        raw = b58.decode_check(s)
    except ValueError as e:
        raise Malformed(f'{s!r}: {e}')
    for k in kinds:
        pref, ln = B58[k]
        if raw.startswith(pref) and len(raw) == len(pref) + ln:
            return k, raw[len(pref):]
    raise Malformed(f'{s!r} is not one of {list(kinds)}')


def len32(b: bytes) -> bytes:
    return len(b).to_bytes(4, 'big') + b


# ------------------------------------------------------------------------------------------------ encoder
def enc_pkh(s):
    k, h = b58dec(s, PKH_TAG)
    return bytes([PKH_TAG[k]]) + h


def enc_contract(s):
    k, h = b58dec(s, ('tz1', 'tz2', 'tz3', 'tz4', 'KT1'))
    return (b'\x01' + h + b'\x00') if k == 'KT1' else (b'\x00' + bytes([PKH_TAG[k]]) + h)


def enc_pk(s):
    k, p = b58dec(s, PK_TAG)
    return bytes([PK_TAG[k]]) + p


def enc_n(v):
    n = int(v)
    if n < 0:
        raise Malformed('negative natural')
    return enc_nat(n)


def enc_bool(b):
    return b'\xff' if b else b'\x00'


def enc_entrypoint(name: str) -> bytes:
    if name in ENTRYPOINT_TAGS:
        return bytes([ENTRYPOINT_TAGS[name]])
    raw = name.encode()
    if not 1 <= len(raw) <= MAX_ENTRYPOINT:
        raise Malformed(f'entrypoint name of {len(raw)} bytes')
    return b'\xff' + bytes([len(raw)]) + raw


def enc_expr(e):
    return len32(MB.enc(e))


def _header(c):
    return bytes([TAGS[c['kind']]]) + enc_pkh(c['source']) + enc_n(c['fee']) + enc_n(c['counter']) + enc_n(c['gas_limit']) \
        + enc_n(c['storage_limit'])


def has_parameters(c) -> bool:
    p = c.get('parameters')
    if not p:
        return False
    return not (p['entrypoint'] == 'default' and MB.normalize(p['value']) == {'prim': 'Unit'})


def encode_content(c, reveal_proof_field=True) -> bytes:
    k = c['kind']
    if k == 'reveal':
        out = _header(c) + enc_pk(c['public_key'])
        if reveal_proof_field:
            if c.get('proof') is not None:
                out += b'\xff' + len32(b58dec(c['proof'], ('BLsig',))[1])
            else:
                out += b'\x00'
        return out
    if k == 'transaction':
        out = _header(c) + enc_n(c['amount']) + enc_contract(c['destination'])
        if has_parameters(c):
            out += b'\xff' + enc_entrypoint(c['parameters']['entrypoint']) + enc_expr(c['parameters']['value'])
        else:
            out += b'\x00'
        return out
    if k == 'origination':
        out = _header(c) + enc_n(c['balance'])
        out += (b'\xff' + enc_pkh(c['delegate'])) if c.get('delegate') else b'\x00'
        return out + enc_expr(c['script']['code']) + enc_expr(c['script']['storage'])
    if k == 'delegation':
        return _header(c) + ((b'\xff' + enc_pkh(c['delegate'])) if c.get('delegate') else b'\x00')
    if k == 'register_global_constant':
        return _header(c) + enc_expr(c['value'])
    if k == 'transfer_ticket':
        return (_header(c) + enc_expr(c['ticket_contents']) + enc_expr(c['ticket_ty']) + enc_contract(c['ticket_ticketer'])
                + enc_n(c['ticket_amount']) + enc_contract(c['destination']) + len32(c['entrypoint'].encode()))
    if k == 'smart_rollup_add_messages':
        return _header(c) + len32(b''.join(len32(bytes.fromhex(m)) for m in c['message']))
    if k == 'smart_rollup_execute_outbox_message':
        return (_header(c) + b58dec(c['rollup'], ('sr1',))[1] + b58dec(c['cemented_commitment'], ('src1',))[1]
                + len32(bytes.fromhex(c['output_proof'])))
    if k == 'failing_noop':
        return bytes([TAGS[k]]) + len32(c['arbitrary'].encode())
    if k == 'activate_account':
        sec = bytes.fromhex(c['secret'])
        if len(sec) != 20:
            raise Malformed('activation secret must be 20 bytes')
        return bytes([TAGS[k]]) + b58dec(c['pkh'], ('tz1',))[1] + sec
    raise Malformed(f'kind {k}')


def encode(group, reveal_proof_field=True) -> bytes:
    return b58dec(group['branch'], ('B',))[1] + b''.join(encode_content(c, reveal_proof_field) for c in group['contents'])


def operation_hash(forged: bytes, signature_b58: str) -> str:
    _, sig = b58dec(signature_b58, ('sig', 'edsig', 'spsig', 'p2sig', 'BLsig'))
    return b58enc('o', hashlib.blake2b(forged + sig, digest_size=32).digest())


# ------------------------------------------------------------------------------------------------ decoder (strict)
class _R:
    def __init__(self, data):
        self.d, self.p = data, 0

    def take(self, n):
        if self.p + n > len(self.d):
            raise Malformed('truncated')
        b = self.d[self.p:self.p + n]
        self.p += n
        return b

    def byte(self):
        return self.take(1)[0]

    def n(self):
        try:
            v, ln = dec_nat_strict(self.d[self.p:])
        except ValueError as e:
            raise Malformed(f'natural: {e}')
        self.p += ln
        return str(v)

    def bool(self):
        b = self.byte()
        if b not in (0, 255):
            raise Malformed(f'bool byte {b:#x}')
        return b == 255

    def dyn(self):
        return self.take(int.from_bytes(self.take(4), 'big'))

    def pkh(self):
        t = self.byte()
        if t > 3:
            raise Malformed(f'pkh tag {t}')
        return b58enc(('tz1', 'tz2', 'tz3', 'tz4')[t], self.take(20))

    def contract(self):
        t = self.byte()
        if t == 0:
            return self.pkh()
        if t == 1:
            h = self.take(20)
            if self.byte() != 0:
                raise Malformed('originated contract padding')
            return b58enc('KT1', h)
        raise Malformed(f'contract tag {t}')

    def pk(self):
        t = self.byte()
        if t > 3:
            raise Malformed(f'public key tag {t}')
        k = ('edpk', 'sppk', 'p2pk', 'BLpk')[t]
        return b58enc(k, self.take(B58[k][1]))

    def expr(self):
        try:
            return MB.dec(self.dyn())
        except MB.Reject as e:
            raise Malformed(f'micheline: {e}')

    def entrypoint(self):
        t = self.byte()
        if t in ENTRYPOINT_OF_TAG:
            return ENTRYPOINT_OF_TAG[t]
        if t != 255:
            raise Malformed(f'entrypoint tag {t}')
        ln = self.byte()
        if not 1 <= ln <= MAX_ENTRYPOINT:
            raise Malformed(f'entrypoint length {ln}')
        name = self.take(ln).decode()
        if name in ENTRYPOINT_TAGS:
            raise Malformed(f'reserved entrypoint {name} in named form (not canonical)')
        return name


def _utf8(b):
    try:
        return b.decode()
    except UnicodeDecodeError as e:
        raise Malformed(str(e))


def decode_content(r: _R):
    tag = r.byte()
    if tag not in KIND_OF_TAG:
        raise Malformed(f'operation tag {tag}')
    k = KIND_OF_TAG[tag]
    c = {'kind': k}
    if k == 'failing_noop':
        c['arbitrary'] = _utf8(r.dyn())
        return c
    if k == 'activate_account':
        c['pkh'] = b58enc('tz1', r.take(20))
        c['secret'] = r.take(20).hex()
        return c
    c['source'] = r.pkh()
    for f in ('fee', 'counter', 'gas_limit', 'storage_limit'):
        c[f] = r.n()
    if k == 'reveal':
        c['public_key'] = r.pk()
        if r.bool():
            sig = r.dyn()
            c['proof'] = b58enc('BLsig', sig)
    elif k == 'transaction':
        c['amount'] = r.n()
        c['destination'] = r.contract()
        if r.bool():
            ep = r.entrypoint()
            v = r.expr()
            if ep == 'default' and v == {'prim': 'Unit'}:
                raise Malformed('default/Unit parameters present (not canonical)')
            c['parameters'] = {'entrypoint': ep, 'value': v}
    elif k == 'origination':
        c['balance'] = r.n()
        if r.bool():
            c['delegate'] = r.pkh()
        c['script'] = {'code': r.expr(), 'storage': r.expr()}
    elif k == 'delegation':
        if r.bool():
            c['delegate'] = r.pkh()
    elif k == 'register_global_constant':
        c['value'] = r.expr()
    elif k == 'transfer_ticket':
        c['ticket_contents'] = r.expr()
        c['ticket_ty'] = r.expr()
        c['ticket_ticketer'] = r.contract()
        c['ticket_amount'] = r.n()
        c['destination'] = r.contract()
        c['entrypoint'] = _utf8(r.dyn())
    elif k == 'smart_rollup_add_messages':
        inner = _R(r.dyn())
        msgs = []
        while inner.p < len(inner.d):
            msgs.append(inner.dyn().hex())
        c['message'] = msgs
    elif k == 'smart_rollup_execute_outbox_message':
        c['rollup'] = b58enc('sr1', r.take(20))
        c['cemented_commitment'] = b58enc('src1', r.take(32))
        c['output_proof'] = r.dyn().hex()
    return c


def decode(data: bytes):
    r = _R(data)
    g = {'branch': b58enc('B', r.take(32)), 'contents': []}
    while r.p < len(data):
        g['contents'].append(decode_content(r))
    return g


# ------------------------------------------------------------------------------------------------ normal form
_FIELDS = {
    'reveal': ('public_key',), 'transaction': ('amount', 'destination'), 'origination': ('balance',), 'delegation': (),
    'register_global_constant': (), 'transfer_ticket': ('ticket_ticketer', 'ticket_amount', 'destination', 'entrypoint'),
    'smart_rollup_add_messages': (), 'smart_rollup_execute_outbox_message': ('rollup', 'cemented_commitment'),
}
_NUM = ('fee', 'counter', 'gas_limit', 'storage_limit', 'amount', 'balance', 'ticket_amount')


def normalize_content(c):
    k = c['kind']
    out = {'kind': k}
    if k == 'failing_noop':
        out['arbitrary'] = c['arbitrary']
        return out
    if k == 'activate_account':
        out['pkh'] = c['pkh']
        out['secret'] = c['secret'].lower()
        return out
    out['source'] = c['source']
    for f in ('fee', 'counter', 'gas_limit', 'storage_limit') + _FIELDS[k]:
        out[f] = str(int(c[f])) if f in _NUM else c[f]
    if k == 'reveal' and c.get('proof') is not None:
        out['proof'] = c['proof']
    if k == 'transaction' and has_parameters(c):
        out['parameters'] = {'entrypoint': c['parameters']['entrypoint'], 'value': MB.normalize(c['parameters']['value'])}
    if k in ('origination', 'delegation') and c.get('delegate'):
        out['delegate'] = c['delegate']
    if k == 'origination':
        out['script'] = {'code': MB.normalize(c['script']['code']), 'storage': MB.normalize(c['script']['storage'])}
    if k == 'register_global_constant':
        out['value'] = MB.normalize(c['value'])
    if k == 'transfer_ticket':
        out['ticket_contents'] = MB.normalize(c['ticket_contents'])
        out['ticket_ty'] = MB.normalize(c['ticket_ty'])
    if k == 'smart_rollup_add_messages':
        out['message'] = [m.lower() for m in c['message']]
    if k == 'smart_rollup_execute_outbox_message':
        out['output_proof'] = c['output_proof'].lower()
    return out


def normalize(group):
    return {'branch': group['branch'], 'contents': [normalize_content(c) for c in group['contents']]}
