"""Reference semantics of the Michelson arithmetic / bitwise / conversion instructions (C16 oracle).

Written from the Michelson reference (Octez protocol documentation, Mumbai level and later), not from
pytezos.  Nothing here imports pytezos.

    spec(prim, operands) -> ('ok', type, value) | ('fail', reason) | ('illtyped',)

operands: list of (type name, python value), top of the stack first.  Type names: int nat mutez timestamp
bytes bool.  Result types: a name, ('option', t) or ('pair', t, u).  Values: int, bytes, bool,
None | ('Some', v) for options, (a, b) for pairs.

Dispatch tables (top : second -> result):
  ADD   nat:nat->nat  nat:int|int:nat|int:int->int  timestamp:int|int:timestamp->timestamp  mutez:mutez->mutez
  SUB   nat|int : nat|int -> int   timestamp:int->timestamp   timestamp:timestamp->int
        mutez:mutez->mutez (deprecated form, kept by the legacy typechecker; fails on a negative difference)
  SUB_MUTEZ mutez:mutez -> option mutez      (None on a negative difference)
  MUL   nat:nat->nat  mixed int/nat->int  mutez:nat|nat:mutez->mutez
  EDIV  nat:nat->option(pair nat nat)  other int/nat mixes->option(pair int nat)
        mutez:nat->option(pair mutez mutez)  mutez:mutez->option(pair nat mutez)
        Euclidean: a = q*b + r, 0 <= r < |b|; None iff b = 0
  ABS int->nat   NEG nat|int->int   ISNAT int->option nat   INT nat->int, bytes->int   NAT bytes->nat
  BYTES nat|int->bytes          LSL, LSR nat:nat->nat (fails when the shift exceeds 256)  bytes:nat->bytes
  AND   bool:bool  nat:nat->nat  int:nat->nat  bytes:bytes      OR, XOR bool:bool nat:nat bytes:bytes
  NOT   bool->bool  nat|int->int (-x-1)  bytes->bytes
mutez results must be < 2^63, otherwise the instruction fails (run-time error, not None).

Bytes <-> numbers (Mumbai): BYTES gives the shortest big-endian encoding, two's complement for int
(0 -> empty; 128 -> 0x0080; -128 -> 0x80; -129 -> 0xff7f); NAT reads big-endian unsigned, INT big-endian
two's complement, both accept redundant leading bytes and the empty string (0).
Bytes bitwise (Mumbai, lib_protocol/script_bytes.ml): AND truncates the longer operand on the left
(result length = min), OR / XOR pad the shorter operand on the left with zeros (max), NOT complements
every byte; LSL by n bits appends n/8 zero bytes and, when n%8 != 0, one more leading byte (result
length = len + ceil(n/8); fails for n > 64000); LSR drops the last n/8 bytes then shifts by n%8
(length = max(0, len - n/8)).
"""
MUTEZ_LIMIT = 1 << 63
NUM = ('int', 'nat')


def opt(t):
    return ('option', t)


def pair(a, b):
    return ('pair', a, b)


def _mutez(v):
    if v < 0:
        return ('fail', 'mutez_underflow')
    if v >= MUTEZ_LIMIT:
        return ('fail', 'mutez_overflow')
    return ('ok', 'mutez', v)


def bytes_of_int(n: int) -> bytes:
    """shortest big-endian two's complement; 0 -> b''"""
    if n == 0:
        return b''
    ln = 1
    while not (-(1 << (8 * ln - 1)) <= n < (1 << (8 * ln - 1))):
        ln += 1
    return (n % (1 << (8 * ln))).to_bytes(ln, 'big')


def bytes_of_nat(n: int) -> bytes:
    assert n >= 0
    return n.to_bytes((n.bit_length() + 7) // 8, 'big')


def int_of_bytes(b: bytes) -> int:
    if not b:
        return 0
    v = int.from_bytes(b, 'big')
    return v - (1 << (8 * len(b))) if b[0] & 0x80 else v


def nat_of_bytes(b: bytes) -> int:
    return int.from_bytes(b, 'big')


def bytes_and(a: bytes, b: bytes) -> bytes:
    n = min(len(a), len(b))
    a, b = a[len(a) - n:], b[len(b) - n:]
    return bytes(x & y for x, y in zip(a, b))


def _padl(a, n):
    return bytes(n - len(a)) + a


def bytes_or(a, b):
    n = max(len(a), len(b))
    return bytes(x | y for x, y in zip(_padl(a, n), _padl(b, n)))


def bytes_xor(a, b):
    n = max(len(a), len(b))
    return bytes(x ^ y for x, y in zip(_padl(a, n), _padl(b, n)))


def bytes_not(a):
    return bytes(x ^ 0xFF for x in a)


def bytes_lsl(a: bytes, n: int):
    if n > 64000:
        return None
    ln = len(a) + (n + 7) // 8
    return ((int.from_bytes(a, 'big') << n) % (1 << (8 * ln))).to_bytes(ln, 'big') if ln else b''


def bytes_lsr(a: bytes, n: int) -> bytes:
    ln = max(0, len(a) - n // 8)
    return (int.from_bytes(a, 'big') >> n).to_bytes(ln, 'big') if ln else b''


def ediv(a, b):
    """Euclidean division: (q, r) with a == q*b + r and 0 <= r < |b|"""
    q, r = divmod(a, b)          # python: r has the sign of b
    if r < 0:
        q, r = q + 1, r - b
    assert a == q * b + r and 0 <= r < abs(b)
    return q, r


def spec(prim, operands):
    ts = tuple(t for t, _ in operands)
    vs = [v for _, v in operands]
    a = vs[0] if vs else None
    b = vs[1] if len(vs) > 1 else None
    if prim == 'ADD':
        if ts == ('nat', 'nat'):
            return ('ok', 'nat', a + b)
        if len(ts) == 2 and ts[0] in NUM and ts[1] in NUM:
            return ('ok', 'int', a + b)
        if ts in (('timestamp', 'int'), ('int', 'timestamp')):
            return ('ok', 'timestamp', a + b)
        if ts == ('mutez', 'mutez'):
            return _mutez(a + b)
    elif prim == 'SUB':
        if len(ts) == 2 and ts[0] in NUM and ts[1] in NUM:
            return ('ok', 'int', a - b)
        if ts == ('timestamp', 'int'):
            return ('ok', 'timestamp', a - b)
        if ts == ('timestamp', 'timestamp'):
            return ('ok', 'int', a - b)
        if ts == ('mutez', 'mutez'):
            return _mutez(a - b)
    elif prim == 'SUB_MUTEZ':
        if ts == ('mutez', 'mutez'):
            return ('ok', opt('mutez'), ('Some', a - b) if a >= b else None)
    elif prim == 'MUL':
        if ts == ('nat', 'nat'):
            return ('ok', 'nat', a * b)
        if len(ts) == 2 and ts[0] in NUM and ts[1] in NUM:
            return ('ok', 'int', a * b)
        if ts in (('mutez', 'nat'), ('nat', 'mutez')):
            return _mutez(a * b)
    elif prim == 'EDIV':
        if len(ts) == 2 and ts[0] in NUM and ts[1] in NUM:
            t = pair('nat', 'nat') if ts == ('nat', 'nat') else pair('int', 'nat')
        elif ts == ('mutez', 'nat'):
            t = pair('mutez', 'mutez')
        elif ts == ('mutez', 'mutez'):
            t = pair('nat', 'mutez')
        else:
            return ('illtyped',)
        return ('ok', opt(t), None if b == 0 else ('Some', ediv(a, b)))
    elif prim == 'ABS':
        if ts == ('int',):
            return ('ok', 'nat', abs(a))
    elif prim == 'NEG':
        if ts in (('int',), ('nat',)):
            return ('ok', 'int', -a)
    elif prim == 'ISNAT':
        if ts == ('int',):
            return ('ok', opt('nat'), ('Some', a) if a >= 0 else None)
    elif prim == 'INT':
        if ts == ('nat',):
            return ('ok', 'int', a)
        if ts == ('bytes',):
            return ('ok', 'int', int_of_bytes(a))
    elif prim == 'NAT':
        if ts == ('bytes',):
            return ('ok', 'nat', nat_of_bytes(a))
    elif prim == 'BYTES':
        if ts == ('nat',):
            return ('ok', 'bytes', bytes_of_nat(a))
        if ts == ('int',):
            return ('ok', 'bytes', bytes_of_int(a))
    elif prim in ('LSL', 'LSR'):
        if ts == ('nat', 'nat'):
            if b > 256:
                return ('fail', 'shift_overflow')
            return ('ok', 'nat', a << b if prim == 'LSL' else a >> b)
        if ts == ('bytes', 'nat'):
            if prim == 'LSL':
                r = bytes_lsl(a, b)
                return ('fail', 'shift_overflow') if r is None else ('ok', 'bytes', r)
            return ('ok', 'bytes', bytes_lsr(a, b))
    elif prim in ('AND', 'OR', 'XOR'):
        f = {'AND': lambda x, y: x & y, 'OR': lambda x, y: x | y, 'XOR': lambda x, y: x ^ y}[prim]
        if ts == ('bool', 'bool'):
            return ('ok', 'bool', bool(f(a, b)))
        if ts == ('nat', 'nat'):
            return ('ok', 'nat', f(a, b))
        if prim == 'AND' and ts == ('int', 'nat'):
            return ('ok', 'nat', a & b)
        if ts == ('bytes', 'bytes'):
            return ('ok', 'bytes', {'AND': bytes_and, 'OR': bytes_or, 'XOR': bytes_xor}[prim](a, b))
    elif prim == 'NOT':
        if ts == ('bool',):
            return ('ok', 'bool', not a)
        if ts in (('int',), ('nat',)):
            return ('ok', 'int', -a - 1)
        if ts == ('bytes',):
            return ('ok', 'bytes', bytes_not(a))
    else:
        raise KeyError(prim)
    return ('illtyped',)


# every (prim, operand types) the reference allows, top of stack first
ALLOWED = {
    'ADD': [('nat', 'nat'), ('nat', 'int'), ('int', 'nat'), ('int', 'int'), ('timestamp', 'int'), ('int', 'timestamp'), ('mutez', 'mutez')],
    'SUB': [('nat', 'nat'), ('nat', 'int'), ('int', 'nat'), ('int', 'int'), ('timestamp', 'int'), ('timestamp', 'timestamp'), ('mutez', 'mutez')],
    'SUB_MUTEZ': [('mutez', 'mutez')],
    'MUL': [('nat', 'nat'), ('nat', 'int'), ('int', 'nat'), ('int', 'int'), ('mutez', 'nat'), ('nat', 'mutez')],
    'EDIV': [('nat', 'nat'), ('nat', 'int'), ('int', 'nat'), ('int', 'int'), ('mutez', 'nat'), ('mutez', 'mutez')],
    'ABS': [('int',)], 'NEG': [('int',), ('nat',)], 'ISNAT': [('int',)],
    'INT': [('nat',), ('bytes',)], 'NAT': [('bytes',)], 'BYTES': [('nat',), ('int',)],
    'LSL': [('nat', 'nat'), ('bytes', 'nat')], 'LSR': [('nat', 'nat'), ('bytes', 'nat')],
    'AND': [('bool', 'bool'), ('nat', 'nat'), ('int', 'nat'), ('bytes', 'bytes')],
    'OR': [('bool', 'bool'), ('nat', 'nat'), ('bytes', 'bytes')],
    'XOR': [('bool', 'bool'), ('nat', 'nat'), ('bytes', 'bytes')],
    'NOT': [('bool',), ('nat',), ('int',), ('bytes',)],
}

# Octez regression vectors recorded in /repo/tests/.../opcodes/bytes_of_int.tz, bytes_of_nat.tz, and_binary.tz
RECORDED = [
    ('BYTES', [('int', 0)], b''), ('BYTES', [('int', 1)], b'\x01'), ('BYTES', [('int', 1193046)], bytes.fromhex('123456')),
    ('INT', [('bytes', bytes.fromhex('123456'))], 1193046), ('INT', [('bytes', bytes.fromhex('0000123456'))], 1193046),
    ('INT', [('bytes', b'')], 0), ('INT', [('bytes', b'\0\0')], 0),
    ('BYTES', [('int', -128)], b'\x80'), ('BYTES', [('int', -129)], bytes.fromhex('ff7f')),
    ('BYTES', [('int', -33024)], bytes.fromhex('ff7f00')), ('BYTES', [('int', -4294967296)], bytes.fromhex('ff00000000')),
    ('INT', [('bytes', b'\x80')], -128), ('INT', [('bytes', bytes.fromhex('ff7f'))], -129),
    ('INT', [('bytes', bytes.fromhex('ffffff7f00'))], -33024), ('INT', [('bytes', bytes.fromhex('ff00000000'))], -4294967296),
    ('BYTES', [('nat', 0)], b''), ('BYTES', [('nat', 1193046)], bytes.fromhex('123456')),
    ('NAT', [('bytes', bytes.fromhex('0000123456'))], 1193046), ('NAT', [('bytes', b'')], 0),
    ('AND', [('int', 5), ('nat', 6)], 4), ('AND', [('int', -1), ('nat', 12)], 12), ('AND', [('int', -5), ('nat', 12)], 8),
]


def selfcheck():
    for prim, ops, want in RECORDED:
        r = spec(prim, ops)
        assert r[0] == 'ok' and r[2] == want, (prim, ops, r, want)
    for n in list(range(-70000, 70000, 37)) + [2 ** 63, -2 ** 63, 2 ** 255, -2 ** 255 - 1]:
        assert int_of_bytes(bytes_of_int(n)) == n
        if n >= 0:
            assert nat_of_bytes(bytes_of_nat(n)) == n
        b_ = bytes_of_int(n)
        assert len(b_) <= 1 or not ((b_[0] == 0 and b_[1] < 0x80) or (b_[0] == 0xFF and b_[1] >= 0x80)), n   # minimal
    assert bytes_lsl(b'\x06', 1) == b'\x00\x0c' and bytes_lsl(b'\x06', 8) == b'\x06\x00' and bytes_lsl(b'\x06', 0) == b'\x06'
    assert bytes_lsr(b'\x00\x06', 1) == b'\x00\x03' and bytes_lsr(b'\x00\x12\x34', 8) == b'\x00\x12' and bytes_lsr(b'\x06', 8) == b''
    assert bytes_and(b'\xff', b'\x0f\x0f') == b'\x0f' and bytes_or(b'\xf0', b'\x0f\x0f') == b'\x0f\xff'
    for a, b in [(7, 2), (-7, 2), (7, -2), (-7, -2), (0, 5), (6, 3), (-6, 3)]:
        ediv(a, b)
    return True
