"""Oracle for C31 — Tezos Merkle tree over Blake2b-256 (lib_crypto Blake2B.Generic_Merkle_tree), written as the
mathematical definition the property states, not as the in-place array algorithm:

    H(x)       = BLAKE2b-256(x)
    root([])   = H("")                                   (hash of the empty string)
    root([x])  = H(x)                                    (the single leaf)
    root(xs)   = tree(pad(map H xs))  for |xs| >= 2, where pad extends the leaves to the next power of two
                 with copies of the LAST leaf, and tree pairs neighbours: node(l, r) = H(l ‖ r) up to one root.

Derived hashes (shell / protocol encodings):
    operation_list_hash(ops)            = b58check( 85 e9   ‖ root(raw op hashes) )                 "Lo…"
    operation_list_list_hash(passes)    = b58check( 1d 9f 6d ‖ root([root(p) for p in passes]) )      "LLo…"
    block_payload_hash(pred, round, ops)= b58check( 01 6a f2 ‖ H( pred ‖ int32_be(round) ‖ root(ops) ) )   "vh…"
Base58Check from specs/b58.py (independent of the `base58` package).
"""
from __future__ import annotations
import hashlib
from specs import b58

PREFIX_OP = bytes([5, 116])            # o   (51)  32-byte operation hash
PREFIX_BLOCK = bytes([1, 52])          # B   (51)
PREFIX_LO = bytes([133, 233])          # Lo  (52)
PREFIX_LLO = bytes([29, 159, 109])     # LLo (53)
PREFIX_VH = bytes([1, 106, 242])       # vh  (52)


def H(x: bytes) -> bytes:
    return hashlib.blake2b(x, digest_size=32).digest()


def root(items) -> bytes:
    items = list(items)
    if not items:
        return H(b'')
    level = [H(x) for x in items]
    if len(level) == 1:
        return level[0]
    size = 1
    while size < len(level):
        size *= 2
    level = level + [level[-1]] * (size - len(level))
    while len(level) > 1:
        level = [H(level[i] + level[i + 1]) for i in range(0, len(level), 2)]
    return level[0]


def op_b58(raw32: bytes) -> str:
    return b58.encode_check(PREFIX_OP + raw32)


def block_b58(raw32: bytes) -> str:
    return b58.encode_check(PREFIX_BLOCK + raw32)


def _raw(s: str, prefix: bytes) -> bytes:
    d = b58.decode_check(s)
    if not d.startswith(prefix) or len(d) != len(prefix) + 32:
        raise ValueError(f'not a {prefix.hex()} hash: {s}')
    return d[len(prefix):]


def operation_list_hash(ops) -> str:
    return b58.encode_check(PREFIX_LO + root(_raw(o, PREFIX_OP) for o in ops))


def operation_list_list_hash(passes) -> str:
    return b58.encode_check(PREFIX_LLO + root(root(_raw(o, PREFIX_OP) for o in p) for p in passes))


def block_payload_hash(predecessor: str, payload_round: int, ops) -> str:
    body = _raw(predecessor, PREFIX_BLOCK) + payload_round.to_bytes(4, 'big', signed=True) + root(_raw(o, PREFIX_OP) for o in ops)
    return b58.encode_check(PREFIX_VH + H(body))
