#!/usr/bin/env python3
"""Developer tool: re-run every stored seeded change (/verif/seeded/*/patch.diff) against the CURRENT checks on scratch worktrees
(never /repo itself) and print CAUGHT / MISSED per seed.  usage: tools/seedregress.py [name-prefix ...] [-j N]"""
import json, os, shutil, subprocess, sys, tempfile, glob
from concurrent.futures import ThreadPoolExecutor
args = [a for a in sys.argv[1:] if not a.startswith('-j')]
jobs = int(next((a[2:] for a in sys.argv[1:] if a.startswith('-j')), '4'))
seeds = sorted(os.path.basename(os.path.dirname(p)) for p in glob.glob('/verif/seeded/*/patch.diff'))
if args:
    seeds = [s for s in seeds if any(s.startswith(a) for a in args)]


def one(name):
    meta = json.load(open(f'/verif/seeded/{name}/meta.json'))
    pid = meta['property']
    d = tempfile.mkdtemp(prefix='seedreg_', dir='/tmp')
    try:
        subprocess.run(['git', '-C', '/repo', 'worktree', 'add', '--detach', d + '/wt', 'HEAD'], check=True, capture_output=True)
        ap = subprocess.run(['git', '-C', d + '/wt', 'apply', f'/verif/seeded/{name}/patch.diff'], capture_output=True, text=True)
        if ap.returncode != 0:
            return name, 'PATCH-DOES-NOT-APPLY', ''
        env = dict(os.environ, VERIF_REPO_SRC=d + '/wt/src', VERIF_KEEP_EVIDENCE='1', VERIF_BUDGET_S='900')
        rc = subprocess.run(['/verif/check', pid, '--tier', 'quick'], capture_output=True, text=True, env=env)
        viol = [l for l in rc.stdout.splitlines() if l.startswith('VIOLATION')]
        obl = [l.strip() for l in rc.stdout.splitlines() if l.strip().startswith('obligation:')]
        return name, ('CAUGHT' if rc.returncode == 1 and viol else f'MISSED(exit {rc.returncode})'), (obl[0] if obl else '')
    finally:
        subprocess.run(['git', '-C', '/repo', 'worktree', 'remove', '--force', d + '/wt'], capture_output=True)
        shutil.rmtree(d, ignore_errors=True)


from concurrent.futures import as_completed
bad, n = [], 0
with ThreadPoolExecutor(jobs) as ex:
    for fut in as_completed([ex.submit(one, s) for s in seeds]):
        name, v, o = fut.result()
        n += 1
        print(f'{name}: {v} {o[:140]}', flush=True)
        if v != 'CAUGHT':
            bad.append(name)
print(f'{n - len(bad)}/{n} caught' + (f'; NOT caught: {sorted(bad)}' if bad else ''), flush=True)
