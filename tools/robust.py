#!/usr/bin/env python3
"""Developer tool: apply each behaviour-preserving refactor of reports/robustness_diffs/ to a scratch copy of /repo/src and run its check."""
import glob, os, shutil, subprocess, sys, tempfile
only = sys.argv[1:]
for d in sorted(glob.glob('/verif/reports/robustness_diffs/*.diff')):
    name = os.path.basename(d)[:-5]
    if only and name not in only:
        continue
    pid = name.split('_')[0]
    t = tempfile.mkdtemp(prefix='rob_', dir='/tmp')
    try:
        os.makedirs(t + '/r')
        shutil.copytree('/repo/src', t + '/r/src', ignore=shutil.ignore_patterns('__pycache__'))
        ap = subprocess.run(['patch', '-p1', '-s', '-i', d], cwd=t + '/r', capture_output=True, text=True)
        if ap.returncode != 0:
            print(f'{name}: patch failed {ap.stdout[-200:]}')
            continue
        env = dict(os.environ, VERIF_REPO_SRC=t + '/r/src', VERIF_KEEP_EVIDENCE='1', VERIF_BUDGET_S='600')
        r = subprocess.run(['/verif/check', pid], capture_output=True, text=True, env=env)
        lines = [l for l in r.stdout.splitlines() if l.startswith(('VIOLATION', 'UNDECIDED', 'CHECKER', '[' + pid))]
        print(f'{name}: exit={r.returncode} ' + ' | '.join(l[:150] for l in lines[:3]))
    finally:
        shutil.rmtree(t, ignore_errors=True)
