#!/usr/bin/env python3
"""Generates MANIFEST.json from the table below (single source of truth for registered checks)."""
import json, sys
sys.path.insert(0, '/verif')
props = [json.loads(l) for l in open('/verif/properties.jsonl')]

# id -> (level, technique, text, note, design_ref)
CHECKS = {
 'C01': ('exploration', 'run-time contract (result == independent reference semantics specs/michelson_ref.py) over type-directed enumeration of well-typed programs x boundary inputs x environments (bounded)',
         'all programs up to a small length per theme alphabet (stack, control, lambdas, structures, strings/bytes, arithmetic, environment) + seeded type-directed walks, generated from the reference typing rules; final stack or FAILWITH value compared; the reference is validated against 314 recorded Octez (script, storage, input, expected) tuples; ~100 execute bodies over dynamically created classes are beyond a whole-interpreter proof (the deductive parts are in C03/C05/C10/C16/C20)',
         'bounded program size/inputs; oracle = specs/michelson_ref.py (validated on recorded Octez artefacts); 4 known findings', '5/C01'),
 'C02': ('exploration', 'run-time contract (type of every slot == reference typing rules, annotations stripped) over the C01 program enumeration with composite key/element type shapes (bounded)',
         'every value left on the stack and the resulting storage has exactly the statically expected type; MAP/ITER keep key and element types; one known finding (MAP over an empty collection)',
         'bounded; oracle = reference typechecker in specs/michelson_ref.py', '5/C02'),
 'C03': ('other', 'PyVC symbolic execution of the real compare/__lt__/__eq__ ASTs on enumerated comparable type shapes with symbolic leaves (S, complete in values); run-time contracts on domain types and set literals (R)',
         'for every enumerated comparable type shape (depth <= 2, thorough 3) and every None/Some, Left/Right variant pair, compare(a,b) equals the Michelson order and is antisymmetric for ALL leaf values; domain types (address, key_hash, key, signature, chain_id) and ordered collections on real boundary values, all pairs + triples',
         'assumed: CPython order on int/str/bytes; strings modelled by integer ranks; not demanded: default-vs-named entrypoint order, P-256 tie-break; bounded type shapes', '5/C03'),
 'C20': ('other', 'PyVC symbolic execution of the real ticket type/instruction ASTs with all amounts symbolic (P); enumerated type shapes for is_duplicable (S)',
         'split/join/TICKET/SPLIT_TICKET return None exactly where Michelson says and conserve the total amount for ALL amounts (ticketer/content equality cases enumerated); is_duplicable false for every enumerated type containing a ticket; whole-program conservation is NOT covered deductively',
         'assumed: NatType invariant (amount >= 0); ErrorTrace wrapper only re-labels exceptions; PyVC encoding; z3', '5/C20'),
 'C05': ('other', 'PyVC: VCs from the real AST + loop invariants, z3/cvc5 (P); symbolic execution on enumerated tree shapes (S, bounded); run-time contracts (R, bounded)',
         'forge_nat/forge_int/unforge_int/get_tag/read_tag/forge_array/unforge_array proved for all integers and all byte strings against the Zarith/Micheline grammar spec; forge_micheline/unforge_micheline only on bounded tree shapes (symbolic leaves) and bounded native trees; claimed as other because the recursive parser is not proved unbounded',
         'trusted: PyVC encoding of the Python subset, z3/cvc5, specs/zarith.py + specs/micheline_bin.py; assumed inverse pairs hex/fromhex, encode/decode, str/int; prim table read live', '5/C05'),
 'C07': ('exploration', 'run-time contracts on Key.sign / Key.verify / CHECK_SIGNATURE over fixed key sets x enumerated variations, independent verifiers (OpenSSL/cryptography, recomposed BLS) (bounded)',
         'PARTIAL: the wrapper logic is under contract (sign never raises, prefixes, digest discipline, verify(sign(m)), rejection of every single-bit/byte alteration of message/signature/key over the enumerated set, CHECK_SIGNATURE agreement); the cryptographic primitives (pysodium, coincurve, fastecdsa, py_ecc) are assumed contracts: this family cannot decide elliptic-curve arithmetic in C libraries',
         'assumed: correctness of the crypto libraries and of the independent verifiers; bounded key/message/alteration sets', '5/C07'),
 'C08': ('exploration', 'run-time contracts on key import/export/address derivation and BIP-39 validation against independent recomputation (bounded)',
         'PARTIAL: public key hash = b58(tz-prefix, blake2b-160(public key)) recomputed independently, export/import round trips for 4 curves x passphrases, validate_mnemonic == specs/bip39.py on valid/invalid mnemonics, determinism; public-key derivation itself is an assumed contract of the libraries; one known finding (BLS mnemonic derivation)',
         'assumed: crypto libraries; bounded key/passphrase/mnemonic sets', '5/C08'),
 'C09': ('proof', 'PyVC: per-row linear-integer VCs over the live table + symbolic execution of the real encode/decode/validate ASTs over ghost base58 numbers, z3',
         'for every row and ALL payloads the encoded string has the documented prefix and length; table unambiguity; base58_encode/base58_decode/_validate/is_* decided on the real code with the base58 package replaced by its contract; payload lengths are fixed per row so per-row symbolic execution is complete',
         'assumed: base58.b58encode_check/b58decode_check implement specs/b58.py (exercised at run time every run); sha256 checksum uninterpreted; PyVC encoding; z3', '5/C09'),
 'C10': ('other', 'PyVC: symbolic execution of the real forge/unforge ASTs with all payload bytes symbolic, base58 by the C09 contracts (ghost strings), z3 (P); run-time contracts on the domain types (R, bounded)',
         'address (22-byte and 21-byte key-hash forms), contract+entrypoint (every name, symbolic bytes, length 1..31), public key, signature and chain-id round trips and exact layouts proved for ALL payload bytes; typed-value layer checked at run time on boundary/random strings',
         'assumed: C09 contracts of base58_encode/base58_decode/b58decode_check; str.encode/decode inverse; PyVC encoding; z3', '5/C10'),
 'C17': ('exploration', 'relational run-time contract: execution results, failures and PACK bytes are invariant under every re-annotation of the type arguments (bounded)',
         'programs over pair/option/or/collection manipulation x all re-annotations ({none, %a, :t, both}) of each type argument to depth 3 x values: same outcome, same types modulo annotations, same PACK bytes',
         'bounded program/annotation enumeration', '5/C17'),
 'C18': ('exploration', 'run-time contract (format∘parse identity) over exhaustive bounded enumeration of well-sorted Micheline',
         'every primitive of the live table in every admissible argument slot, all expressions up to 5 (7) nodes over a reduced alphabet, literal/escape/annotation boundary classes, inline and multi-line layouts incl. narrow widths; the PLY-generated parser and json.dumps are external, no deductive part',
         'bounded; external: ply tables, json.dumps; grammar of sorts/arity in specs/C18_michelson_grammar.py', '5/C18'),
 'C30': ('exploration', 'run-time contract (apply∘make_patch, revert) over exhaustive bounded enumeration of text pairs',
         'all pairs of texts up to 4 (6) lines over a 3-line alphabet, with/without trailing newline, empty texts, context sizes 0..3; Protocol.diff/patch on small offline Protocol objects; difflib is external, no deductive part',
         'bounded; external: difflib.unified_diff', '5/C30'),
 'C32': ('other', 'PyVC: structural-induction step of check_code over a ghost node with symbolic primitive and a ghost argument sequence of symbolic length (loop invariant, recursion by contract) and the name clause over z3 strings/regex (P); run-time contract on ViewSection.match (R)',
         'check_code raises exactly for SELF anywhere and for TRANSFER_TOKENS/CREATE_CONTRACT/SET_DELEGATE outside LAMBDA, LAMBDA_REC and PUSH bodies, for trees of any shape (induction); create_type rejects exactly names longer than 31 or with a character outside [A-Za-z0-9_.%@]; end-to-end match on enumerated names and code trees; one known finding (Lambda_rec literal unregistered)',
         'assumed: finite trees (induction), primitives partitioned into 8 named + other, re.fullmatch translated to z3 regex; PyVC encoding; z3', '5/C32'),
 'C33': ('exploration', 'run-time contract against an independent spec_expand over bounded enumeration of scripts and reference graphs',
         'scripts up to size 5 with references in type/code/data position, acyclic constant graphs to depth 3, unknown hashes; hash recomputed independently (Micheline encoder + blake2b + base58 expr)',
         'bounded; shell RPC stubbed by monkeypatch; specs/global_constants.py checked against 7 recorded hashes', '5/C33'),
 'C21': ('exploration', 'run-time contracts on BLS12-381 types and instructions against an independent Fp/Fp2 model and zcash serialization (bounded)',
         'PARTIAL: encodings round-trip for G1/G2 incl. infinity, Fr reduction and little-endian round trip, identity/inverse/associativity/distributivity and PAIRING_CHECK through the real instructions on scalar multiples 0..3 of the generators; the group/field laws of py_ecc for all points are an assumed contract',
         'assumed: py_ecc arithmetic; bounded point/scalar sets', '5/C21'),
 'C22': ('exploration', 'run-time relational contract on Interpreter.execute over exhaustively enumerated REPL sessions with injected failures (bounded)',
         'all sessions up to length 4 (5 + subset of 6 thorough) over a 15-cell alphabet with a failing instruction injected at every position: stack, context, ownership invariant (big_maps refer to the interpreter context) and every later observable equal those of the session without the failing cells; heap aliasing/deepcopy is outside the deductive engine',
         'bounded session length and cell alphabet; structural comparison of observables', '5/C22'),
 'C23': ('exploration', 'run-time contracts on OperationGroup.sign/hash/binary_payload with independent verification and hash recomputation (bounded)',
         'PARTIAL: for groups of the forgeable kinds x 4 key kinds x chain ids the signature verifies over watermark (03, or 02+chain id for consensus kinds) + forged bytes and the hash is b58(o, blake2b-256(forged + raw signature)) recomputed independently; cryptographic validity assumed as in C07',
         'assumed: crypto libraries; RPC stubbed; bounded groups/keys', '5/C23'),
 'C26': ('other', 'PyVC: symbolic execution of the real RpcNode.request AST over a symbolic response sequence (constant loop bound, complete) (P); exhaustive enumeration of classifier body shapes (S); run-time contract over response sequences (R)',
         'a request is re-sent exactly after a transient 5xx below the attempt limit, at most 6 attempts, delays 0.25*2^i capped at 2.0, the last response decides (200 returned, else its error) for ALL status codes and verdicts; _is_transient_response equals the specification on every body shape (error lists of length 0..3 over 6 element kinds x content type x marker)',
         'assumed: requests.request/sleep/json/pformat externals as ghost stubs; RpcError.from_response by contract; PyVC encoding; z3', '5/C26'),
 'C25': ('exploration', 'run-time contracts with ghost node state (account counter, mempool) over exhaustively enumerated client call sequences on a simulated node (bounded)',
         'all well-formed call sequences up to length 5 (6 thorough) over build/fill/autofill/sign/inject ok|fail/send/new block: every injected group carries consecutive counters after node counter + pending operations; two fill()-only-path defects are recorded as known findings',
         'simulated node (specs/C25_node.py) stubs the shell RPC; bounded sequence length; protocol-level history property: no inductive invariant attempted', '5/C25'),
 'C27': ('proof', 'PyVC: VCs from the real ASTs of _gen_error_variants and RpcError.from_errors over identifiers as z3 sequences of chunks and an uninterpreted registry (P); run-time contract on the live registry (R, not counted)',
         'for identifiers of ANY number of chunks, ANY registry and error lists of ANY length: the raised class is the handler of the first registered variant in the order full id, id without proto.<protocol>., final component, category; generic RpcError otherwise; the last error is used',
         "assumed: split('.')/'.'.join inverse on chunk sequences; registry uninterpreted; PyVC encoding; z3 sequence theory", '5/C27'),
 'C29': ('proof', 'PyVC: recursion contract (bisect, measure end-start), loop invariants with per-iteration yield obligations over an uninterpreted history function with the convexity precondition, z3 (P); run-time contract over all histories on ranges <= 40 (R, not counted)',
         'find_state_change returns the first differing level for all ranges; walk_state_change_interval yields exactly the change points in increasing order; find_state_change_intervals samples chain from head down to last for all steps >= 1 and yields exactly the gaps whose end values differ; composition in find_state_changes (reversed list + yield from) is covered by the bounded part only',
         'assumed: get = uninterpreted G, equals = equality; generators as ghost sequences; per-iteration facts compose by induction (stated); PyVC encoding; z3 quantifier instantiation', '5/C29'),
 'C28': ('proof', 'PyVC: VCs from the real AST of RpcMultiNode.request with ghost request counter, z3 (P); run-time contract over all outcome sequences (R, bounded, not counted)',
         'the rotation invariant _next_i == k mod n is preserved by request on normal and exceptional exit for all n >= 1, all k, with the inner request havocked (returns or raises RpcError/any exception): by induction every outcome sequence sends request i to node i mod n',
         'assumed: self.nodes is a list of n>=1 nodes; inner request havocked; PyVC encoding; z3', '5/C28'),
 'C31': ('other', 'PyVC symbolic execution of the real hash.py ASTs on lists of concrete length with symbolic leaves and uninterpreted blake2b (S, bounded length); run-time contract vs specs/merkle.py (R)',
         'for every list length 0..33 (129 thorough) and ALL hash values the result term equals the padded-power-of-two Merkle root term; list/list-list/payload hashes compose it with the right base58 kinds; an unbounded proof of the in-place array algorithm is not attempted',
         'assumed: blake2b uninterpreted, concatenation free; base58 by the C09 contract; bounded list length', '5/C31'),
}
NA_REASON = 'check not built yet (framework under construction); see DESIGN.md sec. 5 for the plan'
m = {"version": 1, "setup_cmd": "./setup.sh",
     "hooks": {"guard": "PYTEZOS_VERIF", "enable": "no source hooks: contracts are sidecar files under /verif/contracts and /verif/props; run-time wrappers and stubs are installed by monkeypatch from /verif",
               "baseline_off_cmd": "cd /repo && /venv/bin/python -m pytest -ra -q -p no:cacheprovider --timeout=900 --continue-on-collection-errors",
               "source_commits": [], "add_only": True},
     "engines": [{"name": "PyVC", "path": "vlib/pyvc", "serves_properties": sorted(CHECKS),
                  "kind_free_text": "verification-condition generator / symbolic executor over the real Python ASTs of /repo with sidecar contracts, z3 + cvc5"},
                 {"name": "rt-contracts", "path": "vlib/contract.py", "serves_properties": sorted(CHECKS),
                  "kind_free_text": "run-time evaluation of the same contracts on the real functions over enumerated small scopes (bounded stand-in)"}],
     "checks": [], "notes": "see DESIGN.md; exit codes 0 held / 1 violation / 2 undecided / 3 checker crash",
     "not_applicable": []}
for p in props:
    pid = p['id']
    if pid in CHECKS:
        lvl, tech, text, note, ref = CHECKS[pid]
        m['checks'].append({"property_id": pid, "quick_cmd": f"./check {pid} --tier quick", "thorough_cmd": f"./check {pid} --tier thorough",
                            "evidence_file": f"/verif/evidence/{pid}.json", "replay_cmd_template": f"./check {pid} --replay {{path}}",
                            "engine": "PyVC" if 'PyVC' in tech else "rt-contracts",
                            "level_claimed": {"category": lvl, "text": text, "design_ref": ref}, "level_note": note, "technique": tech})
    else:
        m['not_applicable'].append({"property_id": pid, "reason": NA_REASON})
json.dump(m, open('/verif/MANIFEST.json', 'w'), indent=1)
import jsonschema
jsonschema.validate(m, json.load(open('/root/.vp/MANIFEST.schema.json')))
print('MANIFEST ok:', len(m['checks']), 'checks')
