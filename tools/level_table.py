#!/usr/bin/env python3
"""prints the markdown level table of DESIGN.md sec. 9.3 from MANIFEST.json + the last evidence files"""
import json
m = json.load(open('/verif/MANIFEST.json'))
print('| id | level | technique (deciding method) | obligations P / S discharged · bounded evaluations (last quick run) |\n|---|---|---|---|')
for c in m['checks']:
    pid = c['property_id']
    try:
        e = json.load(open(f'/verif/evidence/{pid}.json'))
        cov = e['coverage']
        nums = f"P {cov.get('discharged', 0)}/{cov.get('obligations', 0)} · S {cov.get('bounded_symbolic_discharged', 0)}/{cov.get('bounded_symbolic_obligations', 0)} · R {cov.get('bounded_evaluations', 0)}"
    except Exception:   # noqa
        nums = '?'
    print(f"| {pid} | {c['level_claimed']['category']} | {c['technique'].replace('|', '/')} | {nums} |")
