#!/usr/bin/env python3
"""Developer tool: run every mutation listed in tools/mutants/<Cxx>.json through tools/mutcheck.py.
Each entry: [relative path under src, old, new, note]."""
import json, subprocess, sys
pid = sys.argv[1]
only = sys.argv[2:]
ms = json.load(open(f'/verif/tools/mutants/{pid}.json'))
caught = 0
for i, (rel, old, new, *note) in enumerate(ms):
    if only and str(i) not in only:
        continue
    r = subprocess.run(['/verif/tools/mutcheck.py', pid, rel, old, new], capture_output=True, text=True)
    out = [l for l in r.stdout.splitlines() if 'WARNING' not in l]
    head = out[0] if out else r.stderr[-300:]
    ok = head.startswith('exit=1')
    caught += ok
    print(f'[{i}] {"CAUGHT" if ok else "MISSED"} {head[:160]}')
    for l in out[1:4]:
        print('      ', l[:200])
print(f'{caught}/{len(ms)} caught')
