#!/usr/bin/env python3
"""prints the markdown table of /verif/seeded/*/meta.json (used for DESIGN.md sec. 9.7)"""
import json, glob, os
rows = []
for p in sorted(glob.glob('/verif/seeded/*/meta.json')):
    m = json.load(open(p))
    name = os.path.basename(os.path.dirname(p))
    ob = (m.get('first_failed_obligations') or [''])[0].replace('obligation: ', '')
    hist = ' — ' + m['history'].split(':')[0] if m.get('history') else ''
    rows.append(f"| {name} | {m['property']} | {(m.get('needs') or '')[:110].replace('|', '/')} | {m.get('detected_by_check')}{hist} | `{ob[:80]}` |")
print('| seed | property | needs | detected | first failed obligation |\n|---|---|---|---|---|')
print('\n'.join(rows))
caught = sum('CAUGHT' in r for r in rows)
print(f'\n{caught} of {len(rows)} seeded changes detected.')
