#!/usr/bin/env python3
"""Developer tool: confirm a seeded change (patch.diff + demo.py + meta.json) on a scratch copy of /repo, run the registered
check of its property against it, and store it under /verif/seeded/<name>/ with what was run.
usage: tools/seedcheck.py /tmp/seedA/out/C05_1 [--no-suite]"""
import json, os, shutil, subprocess, sys, tempfile
src = sys.argv[1].rstrip('/')
run_suite = '--no-suite' not in sys.argv
name = os.path.basename(src)
meta = json.load(open(f'{src}/meta.json'))
pid = meta['property']
d = tempfile.mkdtemp(prefix='seedchk_', dir='/tmp')
ran = []
try:
    subprocess.run(['git', '-C', '/repo', 'worktree', 'add', '--detach', d + '/wt', 'HEAD'], check=True, capture_output=True)
    wt = d + '/wt'
    env = dict(os.environ, PYTHONPATH=wt + '/src')
    r0 = subprocess.run(['/venv/bin/python', f'{src}/demo.py'], capture_output=True, text=True, env=env, cwd=wt)
    ran.append(f'demo on unchanged tree: exit {r0.returncode}')
    ap = subprocess.run(['git', '-C', wt, 'apply', f'{src}/patch.diff'], capture_output=True, text=True)
    if ap.returncode != 0:
        print(f'{name}: patch does not apply: {ap.stderr[:300]}')
        sys.exit(2)
    r1 = subprocess.run(['/venv/bin/python', f'{src}/demo.py'], capture_output=True, text=True, env=env, cwd=wt)
    ran.append(f'demo with the change: exit {r1.returncode}: {(r1.stdout + r1.stderr).strip()[-300:]}')
    suite = 'not run'
    if run_suite:
        rs = subprocess.run(['/venv/bin/python', '-m', 'pytest', '-q', '-p', 'no:cacheprovider', 'tests/unit_tests', 'tests/contract_tests'],
                            capture_output=True, text=True, env=env, cwd=wt)
        suite = (rs.stdout.strip().splitlines() or ['?'])[-1]
        ran.append(f'repository test suite with the change: {suite}')
    envc = dict(os.environ, VERIF_REPO_SRC=wt + '/src', VERIF_KEEP_EVIDENCE='1', VERIF_BUDGET_S='600')
    rc = subprocess.run(['/verif/check', pid, '--tier', 'quick'], capture_output=True, text=True, env=envc)
    viol = [l for l in rc.stdout.splitlines() if l.startswith('VIOLATION')]
    obl = [l.strip() for l in rc.stdout.splitlines() if l.strip().startswith('obligation:')]
    ran.append(f'./check {pid} --tier quick on the changed tree: exit {rc.returncode}, {len(viol)} VIOLATION line(s); first obligations: {obl[:3]}')
    ok_demo = r0.returncode == 0 and r1.returncode != 0
    ok_suite = (not run_suite) or ('1081 passed' in suite)
    verdict = 'CAUGHT' if rc.returncode == 1 and viol else f'MISSED(exit {rc.returncode})'
    print(f'{name}: demo ok={ok_demo} suite="{suite}" check={verdict} {obl[:2]}')
    if ok_demo and ok_suite:
        dst = f'/verif/seeded/{name}'
        os.makedirs(dst, exist_ok=True)
        shutil.copy(f'{src}/patch.diff', dst)
        shutil.copy(f'{src}/demo.py', dst)
        meta2 = dict(property=pid, breaks=meta.get('summary'), needs=meta.get('needs'), author='independent sub-agent (property text + scratch worktree only)',
                     confirmed_by_lead=ran, detected_by_check=verdict, first_failed_obligations=obl[:3])
        json.dump(meta2, open(f'{dst}/meta.json', 'w'), indent=1)
finally:
    subprocess.run(['git', '-C', '/repo', 'worktree', 'remove', '--force', d + '/wt'], capture_output=True)
    shutil.rmtree(d, ignore_errors=True)
