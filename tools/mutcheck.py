#!/usr/bin/env python3
"""Developer tool (not a registered check): apply a textual mutation to a scratch copy of /repo/src and run a check on it.
usage: tools/mutcheck.py Cxx path/in/src 'old' 'new' [--tier quick]   -> prints exit code and VIOLATION lines"""
import os, shutil, subprocess, sys, tempfile
pid, rel, old, new = sys.argv[1:5]
tier = sys.argv[6] if len(sys.argv) > 6 else 'quick'
d = tempfile.mkdtemp(prefix='mut_', dir='/tmp')
try:
    shutil.copytree('/repo/src', d + '/src', ignore=shutil.ignore_patterns('__pycache__'))
    p = os.path.join(d, 'src', rel)
    s = open(p).read()
    assert s.count(old) >= 1, f'pattern not found in {rel}'
    open(p, 'w').write(s.replace(old, new, 1))
    env = dict(os.environ, VERIF_REPO_SRC=d + '/src', VERIF_KEEP_EVIDENCE='1', VERIF_BUDGET_S=os.environ.get('VERIF_BUDGET_S', '420'))
    r = subprocess.run(['/verif/check', pid, '--tier', tier], capture_output=True, text=True, env=env)
    lines = [l for l in r.stdout.splitlines() if l.startswith(('VIOLATION', 'UNDECIDED', 'CHECKER', 'KNOWN', '  obligation', '['))]
    print(f'exit={r.returncode}  {old!r} -> {new!r}')
    for l in lines[:8]:
        print('   ', l[:200])
    if r.returncode == 3:
        print(r.stdout[-1500:], r.stderr[-500:])
finally:
    shutil.rmtree(d, ignore_errors=True)
