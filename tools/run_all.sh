#!/bin/sh
# developer tool: run every registered check in the given tier, print one line per check
TIER=${1:-quick}
cd "$(dirname "$0")/.."
[ -x .venv/bin/python ] || ./setup.sh
for p in $(python3 -c "import json; print(' '.join(c['property_id'] for c in json.load(open('MANIFEST.json'))['checks']))"); do
  s=$(date +%s); out=$(VERIF_KEEP_EVIDENCE=${KEEP:-} ./check $p --tier $TIER 2>&1); rc=$?; e=$(date +%s)
  echo "$p rc=$rc $((e-s))s $(echo "$out" | grep "^\[$p\]" | tail -1)"
  [ $rc -ne 0 ] && echo "$out" | grep -E "^(VIOLATION|UNDECIDED|CHECKER)" | head -5
done
