#!/usr/bin/env python3
"""Regenerates the generated blocks of DESIGN.md: the level table of sec. 9.3 (from MANIFEST.json + evidence) and the seed table of
sec. 9.7 (from seeded/*/meta.json).  Blocks are delimited by <!-- LEVELS:BEGIN/END --> and <!-- SEEDS:BEGIN/END -->."""
import subprocess, re
p = '/verif/DESIGN.md'
s = open(p).read()
lv = subprocess.run(['python3', '/verif/tools/level_table.py'], capture_output=True, text=True).stdout.strip()
sd = subprocess.run(['python3', '/verif/tools/seed_table.py'], capture_output=True, text=True).stdout.strip()
for tag, body in (('LEVELS', lv), ('SEEDS', sd)):
    b, e = f'<!-- {tag}:BEGIN -->', f'<!-- {tag}:END -->'
    assert b in s and e in s, tag
    s = s[:s.index(b) + len(b)] + '\n' + body + '\n' + s[s.index(e):]
open(p, 'w').write(s)
print('DESIGN.md blocks regenerated')
